//! The harness's own schema model: generator, two independent printers (JSON and
//! Cedar schema syntax), request environments, conformant-world generator and a
//! type-directed expression generator that guards optional accesses the
//! documented way.

use crate::gen::Kind;
use crate::model::*;
use crate::pools;
use crate::render::is_plain_ident;
use crate::rng::Rng;
use serde_json::{json, Map, Value as J};
use std::collections::{BTreeMap, BTreeSet};

#[derive(Clone, Debug, PartialEq, Eq, PartialOrd, Ord, Hash)]
pub enum GType {
    Bool,
    Long,
    Str,
    /// fully-qualified entity type
    Ent(String),
    Set(Box<GType>),
    /// closed record
    Rec(Vec<GAttr>),
    /// "decimal" | "ipaddr" | "datetime" | "duration"
    Ext(String),
    /// fully-qualified common type name
    Common(String),
}

#[derive(Clone, Debug, PartialEq, Eq, PartialOrd, Ord, Hash)]
pub struct GAttr {
    pub name: String,
    pub ty: GType,
    pub required: bool,
}

#[derive(Clone, Debug, PartialEq, Eq)]
pub struct GEntityType {
    /// fully-qualified
    pub name: String,
    pub member_of: Vec<String>,
    pub attrs: Vec<GAttr>,
    pub tags: Option<GType>,
    pub enum_ids: Option<Vec<String>>,
}

#[derive(Clone, Debug, PartialEq, Eq)]
pub struct GApplies {
    pub principals: Vec<String>,
    pub resources: Vec<String>,
    pub context: Vec<GAttr>,
}

#[derive(Clone, Debug, PartialEq, Eq)]
pub struct GAction {
    /// namespace ("" = empty)
    pub ns: String,
    pub id: String,
    /// direct parents (action groups)
    pub member_of: Vec<Uid>,
    pub applies: Option<GApplies>,
}

impl GAction {
    pub fn uid(&self) -> Uid {
        Uid::new(qualify(&self.ns, "Action"), &self.id)
    }
}

#[derive(Clone, Debug, PartialEq, Eq)]
pub struct GSchema {
    pub namespaces: Vec<String>,
    pub entity_types: Vec<GEntityType>,
    pub actions: Vec<GAction>,
    /// (fully-qualified name, definition)
    pub common_types: Vec<(String, GType)>,
}

pub fn qualify(ns: impl AsRef<str>, base: impl AsRef<str>) -> String {
    let (ns, base) = (ns.as_ref(), base.as_ref());
    if ns.is_empty() {
        base.to_string()
    } else {
        format!("{ns}::{base}")
    }
}

pub fn split_name(fq: &str) -> (&str, &str) {
    match fq.rfind("::") {
        Some(i) => (&fq[..i], &fq[i + 2..]),
        None => ("", fq),
    }
}

#[derive(Clone, Debug, PartialEq, Eq)]
pub struct Env {
    pub principal_ty: String,
    pub action: Uid,
    pub resource_ty: String,
    pub context: Vec<GAttr>,
}

impl GSchema {
    pub fn entity_type(&self, name: &str) -> Option<&GEntityType> {
        self.entity_types.iter().find(|e| e.name == name)
    }
    pub fn resolve<'a>(&'a self, t: &'a GType) -> &'a GType {
        let mut cur = t;
        for _ in 0..8 {
            match cur {
                GType::Common(n) => match self.common_types.iter().find(|(k, _)| k == n) {
                    Some((_, d)) => cur = d,
                    None => return cur,
                },
                _ => return cur,
            }
        }
        cur
    }
    /// fully resolved copy (no Common left)
    pub fn expand(&self, t: &GType) -> GType {
        match self.resolve(t) {
            GType::Set(e) => GType::Set(Box::new(self.expand(e))),
            GType::Rec(attrs) => GType::Rec(attrs.iter().map(|a| GAttr { name: a.name.clone(), ty: self.expand(&a.ty), required: a.required }).collect()),
            x => x.clone(),
        }
    }
    pub fn envs(&self) -> Vec<Env> {
        let mut out = vec![];
        for a in &self.actions {
            if let Some(ap) = &a.applies {
                for p in &ap.principals {
                    for r in &ap.resources {
                        out.push(Env { principal_ty: p.clone(), action: a.uid(), resource_ty: r.clone(), context: ap.context.clone() });
                    }
                }
            }
        }
        out
    }
    /// transitive memberOf between entity types: can an entity of type `t` have an ancestor of type `anc`?
    pub fn type_can_descend(&self, t: &str, anc: &str) -> bool {
        let mut seen = BTreeSet::new();
        let mut stack = vec![t.to_string()];
        while let Some(x) = stack.pop() {
            if let Some(e) = self.entity_type(&x) {
                for m in &e.member_of {
                    if m == anc {
                        return true;
                    }
                    if seen.insert(m.clone()) {
                        stack.push(m.clone());
                    }
                }
            }
        }
        false
    }
}

// ===================================================================== generation

pub struct SchemaOpts {
    pub max_namespaces: usize,
    pub hostile_names: bool,
    pub enums: bool,
    pub common_types: bool,
    pub tags: bool,
    pub ext_types: bool,
}

impl Default for SchemaOpts {
    fn default() -> Self {
        SchemaOpts { max_namespaces: 2, hostile_names: true, enums: true, common_types: true, tags: true, ext_types: true }
    }
}

const ATTR_NAMES: [&str; 12] = ["x", "y", "z", "name", "owner", "n", "s", "flag", "if", "in", "a b", "principal"];
const PLAIN_ATTR_NAMES: [&str; 8] = ["x", "y", "z", "name", "owner", "n", "s", "flag"];

fn gen_type(rng: &mut Rng, depth: usize, ent_names: &[String], commons: &[String], o: &SchemaOpts) -> GType {
    let leaf = |rng: &mut Rng| match rng.below(12) {
        0..=2 => GType::Long,
        3..=4 => GType::Str,
        5..=6 => GType::Bool,
        7..=9 if !ent_names.is_empty() => GType::Ent(rng.pick_clone(ent_names)),
        10 if o.ext_types => GType::Ext(rng.pick(&["decimal", "ipaddr", "datetime", "duration"]).to_string()),
        11 if !commons.is_empty() => GType::Common(rng.pick_clone(commons)),
        _ => GType::Long,
    };
    if depth == 0 {
        return leaf(rng);
    }
    match rng.below(8) {
        0 | 1 => GType::Set(Box::new(gen_type(rng, depth - 1, ent_names, commons, o))),
        2 => GType::Rec(gen_attrs(rng, depth - 1, ent_names, commons, o, 3)),
        _ => leaf(rng),
    }
}

fn gen_attrs(rng: &mut Rng, depth: usize, ent_names: &[String], commons: &[String], o: &SchemaOpts, max: usize) -> Vec<GAttr> {
    let n = rng.below(max + 1);
    let mut out: Vec<GAttr> = vec![];
    for _ in 0..n {
        let name = if o.hostile_names && rng.chance(1, 5) { rng.pick(&ATTR_NAMES).to_string() } else { rng.pick(&PLAIN_ATTR_NAMES).to_string() };
        if out.iter().any(|a| a.name == name) {
            continue;
        }
        out.push(GAttr { name, ty: gen_type(rng, depth, ent_names, commons, o), required: rng.chance(3, 5) });
    }
    out
}

pub fn gen_schema(rng: &mut Rng, o: &SchemaOpts) -> GSchema {
    let mut namespaces: Vec<String> = vec![];
    let n_ns = 1 + rng.below(o.max_namespaces.max(1));
    let ns_pool = ["", "N", "N::M", "P"];
    while namespaces.len() < n_ns {
        let n = rng.pick(&ns_pool).to_string();
        if !namespaces.contains(&n) {
            namespaces.push(n);
        }
    }
    // entity type names
    let n_ent = 2 + rng.below(3);
    let mut ent_names: Vec<String> = vec![];
    // (a definition in a named namespace may not shadow a definition of the empty namespace)
    let shadows = |names: &[String], cand: &str| {
        let (cns, cbase) = split_name(cand);
        names.iter().any(|n| {
            let (ns, base) = split_name(n);
            base == cbase && (ns.is_empty() != cns.is_empty())
        })
    };
    let mut guard = 0;
    while ent_names.len() < n_ent && guard < 100 {
        guard += 1;
        let n = qualify(rng.pick(&namespaces), rng.pick(&["A", "B", "C", "D"]));
        if !ent_names.contains(&n) && !shadows(&ent_names, &n) {
            ent_names.push(n);
        }
    }
    let n_ent = ent_names.len();
    // which are enums (never the first: keeps at least one ordinary type)
    let mut enum_flags = vec![false; n_ent];
    if o.enums {
        for f in enum_flags.iter_mut().skip(1) {
            *f = rng.chance(1, 6);
        }
    }
    // common types
    let mut common_types: Vec<(String, GType)> = vec![];
    if o.common_types {
        for i in 0..rng.below(3) {
            let name = qualify(rng.pick(&namespaces), ["T1", "T2", "T3"][i]);
            if shadows(&common_types.iter().map(|(n, _)| n.clone()).collect::<Vec<_>>(), &name) {
                continue;
            }
            // definitions may refer to earlier common types only (no cycles)
            let earlier: Vec<String> = common_types.iter().map(|(n, _)| n.clone()).collect();
            let def = match rng.below(3) {
                0 => GType::Rec(gen_attrs(rng, 1, &ent_names, &earlier, o, 3)),
                _ => gen_type(rng, 1, &ent_names, &earlier, o),
            };
            common_types.push((name, def));
        }
    }
    let commons: Vec<String> = common_types.iter().map(|(n, _)| n.clone()).collect();
    let mut entity_types = vec![];
    for (i, name) in ent_names.iter().enumerate() {
        if enum_flags[i] {
            let ids: Vec<String> = {
                let mut v: Vec<String> = vec![];
                for _ in 0..1 + rng.below(3) {
                    let s = rng.pick(&["a", "b", "c", "a b", ""]).to_string();
                    if !v.contains(&s) {
                        v.push(s);
                    }
                }
                v
            };
            entity_types.push(GEntityType { name: name.clone(), member_of: vec![], attrs: vec![], tags: None, enum_ids: Some(ids) });
            continue;
        }
        let mut member_of = vec![];
        for other in ent_names.iter().enumerate().filter(|(j, _)| !enum_flags[*j]).map(|(_, n)| n) {
            if rng.chance(1, 3) {
                member_of.push(other.clone());
            }
        }
        let attrs = gen_attrs(rng, 2, &ent_names, &commons, o, 4);
        let tags = if o.tags && rng.chance(1, 3) {
            Some(match rng.below(8) {
                0 => GType::Long,
                1 => GType::Set(Box::new(GType::Str)),
                2 => GType::Ent(rng.pick_clone(&ent_names)),
                3 => GType::Set(Box::new(GType::Ent(rng.pick_clone(&ent_names)))),
                4 => GType::Rec(vec![GAttr { name: "e".into(), ty: GType::Ent(rng.pick_clone(&ent_names)), required: true }, GAttr { name: "n".into(), ty: GType::Long, required: false }]),
                _ => GType::Str,
            })
        } else {
            None
        };
        entity_types.push(GEntityType { name: name.clone(), member_of, attrs, tags, enum_ids: None });
    }
    // actions
    let n_act = 2 + rng.below(3);
    let act_ids = ["view", "edit", "delete", "a b", "group"];
    let mut actions: Vec<GAction> = vec![];
    for i in 0..n_act {
        let ns = rng.pick(&namespaces).to_string();
        let id = act_ids[i].to_string();
        // parents among earlier actions (acyclic)
        let mut member_of = vec![];
        for a in &actions {
            if rng.chance(1, 3) {
                member_of.push(a.uid());
            }
        }
        let applies = if i > 0 && rng.chance(1, 6) {
            None
        } else {
            let pick_types = |rng: &mut Rng| {
                let mut v: Vec<String> = vec![];
                for _ in 0..1 + rng.below(2) {
                    let t = rng.pick_clone(&ent_names);
                    if !v.contains(&t) {
                        v.push(t);
                    }
                }
                v
            };
            Some(GApplies { principals: pick_types(rng), resources: pick_types(rng), context: gen_attrs(rng, 2, &ent_names, &commons, o, 3) })
        };
        actions.push(GAction { ns, id, member_of, applies });
    }
    GSchema { namespaces, entity_types, actions, common_types }
}

// ===================================================================== printer 1: JSON

pub struct PrintStyle {
    /// print references unqualified whenever the documented resolution rules make that unambiguous
    pub unqualified: bool,
    /// JSON: use {"type":"EntityOrCommon"} / bare {"type": name} forms instead of {"type":"Entity"}
    pub loose_json: bool,
}

impl GSchema {
    /// how to write a reference to entity/common type `fq` from inside namespace `ns`
    fn ref_name(&self, fq: &str, ns: &str, st: &PrintStyle) -> String {
        if !st.unqualified {
            return fq.to_string();
        }
        let (tns, base) = split_name(fq);
        let declared = |n: &str| self.entity_types.iter().any(|e| e.name == n) || self.common_types.iter().any(|(c, _)| c == n);
        if tns == ns {
            // the current namespace has priority
            return base.to_string();
        }
        if tns.is_empty() && !declared(&qualify(ns, base)) {
            // falls through to the empty namespace
            return base.to_string();
        }
        fq.to_string()
    }

    fn type_json(&self, t: &GType, ns: &str, st: &PrintStyle) -> J {
        match t {
            GType::Bool => json!({"type": "Boolean"}),
            GType::Long => json!({"type": "Long"}),
            GType::Str => json!({"type": "String"}),
            GType::Ent(n) => {
                if st.loose_json {
                    json!({"type": "EntityOrCommon", "name": self.ref_name(n, ns, st)})
                } else {
                    json!({"type": "Entity", "name": self.ref_name(n, ns, st)})
                }
            }
            GType::Set(e) => json!({"type": "Set", "element": self.type_json(e, ns, st)}),
            GType::Rec(attrs) => json!({"type": "Record", "attributes": self.attrs_json(attrs, ns, st)}),
            GType::Ext(n) => json!({"type": "Extension", "name": n}),
            GType::Common(n) => {
                if st.loose_json {
                    json!({"type": "EntityOrCommon", "name": self.ref_name(n, ns, st)})
                } else {
                    json!({"type": self.ref_name(n, ns, st)})
                }
            }
        }
    }

    fn attrs_json(&self, attrs: &[GAttr], ns: &str, st: &PrintStyle) -> J {
        let mut m = Map::new();
        for a in attrs {
            let mut t = self.type_json(&a.ty, ns, st);
            if !a.required {
                t["required"] = json!(false);
            }
            m.insert(a.name.clone(), t);
        }
        J::Object(m)
    }

    pub fn to_json(&self, st: &PrintStyle) -> J {
        let mut top = Map::new();
        for ns in &self.namespaces {
            let mut ets = Map::new();
            for e in self.entity_types.iter().filter(|e| split_name(&e.name).0 == ns) {
                let base = split_name(&e.name).1;
                if let Some(ids) = &e.enum_ids {
                    ets.insert(base.to_string(), json!({"enum": ids}));
                    continue;
                }
                let mut m = Map::new();
                if !e.member_of.is_empty() {
                    m.insert("memberOfTypes".into(), json!(e.member_of.iter().map(|t| self.ref_name(t, ns, st)).collect::<Vec<_>>()));
                }
                m.insert("shape".into(), json!({"type": "Record", "attributes": self.attrs_json(&e.attrs, ns, st)}));
                if let Some(t) = &e.tags {
                    m.insert("tags".into(), self.type_json(t, ns, st));
                }
                ets.insert(base.to_string(), J::Object(m));
            }
            let mut acts = Map::new();
            for a in self.actions.iter().filter(|a| a.ns == *ns) {
                let mut m = Map::new();
                if !a.member_of.is_empty() {
                    m.insert(
                        "memberOf".into(),
                        J::Array(
                            a.member_of
                                .iter()
                                .map(|u| {
                                    let (uns, _) = split_name(&u.ty);
                                    if uns == ns && st.unqualified {
                                        json!({"id": u.id})
                                    } else {
                                        json!({"id": u.id, "type": u.ty})
                                    }
                                })
                                .collect(),
                        ),
                    );
                }
                if let Some(ap) = &a.applies {
                    m.insert(
                        "appliesTo".into(),
                        json!({
                            "principalTypes": ap.principals.iter().map(|t| self.ref_name(t, ns, st)).collect::<Vec<_>>(),
                            "resourceTypes": ap.resources.iter().map(|t| self.ref_name(t, ns, st)).collect::<Vec<_>>(),
                            "context": {"type": "Record", "attributes": self.attrs_json(&ap.context, ns, st)},
                        }),
                    );
                }
                acts.insert(a.id.clone(), J::Object(m));
            }
            let mut nsobj = Map::new();
            let cts: Map<String, J> = self
                .common_types
                .iter()
                .filter(|(n, _)| split_name(n).0 == ns)
                .map(|(n, d)| (split_name(n).1.to_string(), self.type_json(d, ns, st)))
                .collect();
            if !cts.is_empty() {
                nsobj.insert("commonTypes".into(), J::Object(cts));
            }
            nsobj.insert("entityTypes".into(), J::Object(ets));
            nsobj.insert("actions".into(), J::Object(acts));
            top.insert(ns.clone(), J::Object(nsobj));
        }
        J::Object(top)
    }
}

// ===================================================================== printer 2: Cedar schema syntax

fn cedar_str(s: &str) -> String {
    let mut out = String::from("\"");
    for c in s.chars() {
        match c {
            '"' => out.push_str("\\\""),
            '\\' => out.push_str("\\\\"),
            '\n' => out.push_str("\\n"),
            '\0' => out.push_str("\\0"),
            c => out.push(c),
        }
    }
    out.push('"');
    out
}

fn cedar_name(s: &str) -> String {
    // attribute / action names: identifier when possible, else string
    if is_plain_ident(s) {
        s.to_string()
    } else {
        cedar_str(s)
    }
}

impl GSchema {
    fn type_cedar(&self, t: &GType, ns: &str, st: &PrintStyle) -> String {
        match t {
            GType::Bool => "Bool".into(),
            GType::Long => "Long".into(),
            GType::Str => "String".into(),
            GType::Ent(n) | GType::Common(n) => self.ref_name(n, ns, st),
            GType::Set(e) => format!("Set<{}>", self.type_cedar(e, ns, st)),
            GType::Rec(attrs) => self.attrs_cedar(attrs, ns, st),
            GType::Ext(n) => n.clone(),
        }
    }
    fn attrs_cedar(&self, attrs: &[GAttr], ns: &str, st: &PrintStyle) -> String {
        let parts: Vec<String> = attrs.iter().map(|a| format!("{}{}: {}", cedar_name(&a.name), if a.required { "" } else { "?" }, self.type_cedar(&a.ty, ns, st))).collect();
        format!("{{ {} }}", parts.join(", "))
    }

    pub fn to_cedar(&self, st: &PrintStyle) -> String {
        let mut out = String::new();
        for ns in &self.namespaces {
            let mut body = String::new();
            for (n, d) in self.common_types.iter().filter(|(n, _)| split_name(n).0 == ns) {
                body.push_str(&format!("  type {} = {};\n", split_name(n).1, self.type_cedar(d, ns, st)));
            }
            for e in self.entity_types.iter().filter(|e| split_name(&e.name).0 == ns) {
                let base = split_name(&e.name).1;
                if let Some(ids) = &e.enum_ids {
                    body.push_str(&format!("  entity {} enum [{}];\n", base, ids.iter().map(|i| cedar_str(i)).collect::<Vec<_>>().join(", ")));
                    continue;
                }
                let mut s = format!("  entity {}", base);
                if !e.member_of.is_empty() {
                    s.push_str(&format!(" in [{}]", e.member_of.iter().map(|t| self.ref_name(t, ns, st)).collect::<Vec<_>>().join(", ")));
                }
                if !e.attrs.is_empty() {
                    s.push_str(&format!(" = {}", self.attrs_cedar(&e.attrs, ns, st)));
                }
                if let Some(t) = &e.tags {
                    s.push_str(&format!(" tags {}", self.type_cedar(t, ns, st)));
                }
                s.push_str(";\n");
                body.push_str(&s);
            }
            for a in self.actions.iter().filter(|a| a.ns == *ns) {
                let mut s = format!("  action {}", cedar_name(&a.id));
                if !a.member_of.is_empty() {
                    let ps: Vec<String> = a
                        .member_of
                        .iter()
                        .map(|u| {
                            let (uns, _) = split_name(&u.ty);
                            if uns == ns && st.unqualified {
                                cedar_name(&u.id)
                            } else {
                                format!("{}::{}", u.ty, cedar_str(&u.id))
                            }
                        })
                        .collect();
                    s.push_str(&format!(" in [{}]", ps.join(", ")));
                }
                if let Some(ap) = &a.applies {
                    s.push_str(&format!(
                        " appliesTo {{ principal: [{}], resource: [{}], context: {} }}",
                        ap.principals.iter().map(|t| self.ref_name(t, ns, st)).collect::<Vec<_>>().join(", "),
                        ap.resources.iter().map(|t| self.ref_name(t, ns, st)).collect::<Vec<_>>().join(", "),
                        self.attrs_cedar(&ap.context, ns, st)
                    ));
                }
                s.push_str(";\n");
                body.push_str(&s);
            }
            if ns.is_empty() {
                out.push_str(&body);
            } else {
                out.push_str(&format!("namespace {} {{\n{}}}\n", ns, body));
            }
        }
        out
    }
}

// ===================================================================== conformant worlds

pub struct WorldGen<'a> {
    pub schema: &'a GSchema,
    /// uid pool per entity type
    pub pools: BTreeMap<String, Vec<Uid>>,
}

impl<'a> WorldGen<'a> {
    pub fn new(rng: &mut Rng, schema: &'a GSchema) -> Self {
        let mut pools_: BTreeMap<String, Vec<Uid>> = BTreeMap::new();
        for e in &schema.entity_types {
            let ids: Vec<String> = match &e.enum_ids {
                Some(ids) => ids.clone(),
                None => {
                    let mut v: Vec<String> = vec!["a".into(), "b".into()];
                    if rng.bool() {
                        v.push(if rng.chance(1, 3) { rng.pick(&pools::IDS).to_string() } else { "c".into() });
                    }
                    v.dedup();
                    v
                }
            };
            let mut seen = BTreeSet::new();
            pools_.insert(e.name.clone(), ids.into_iter().filter(|i| seen.insert(i.clone())).map(|i| Uid::new(&e.name, i)).collect());
        }
        WorldGen { schema, pools: pools_ }
    }

    pub fn value_of_type(&self, rng: &mut Rng, t: &GType, depth: usize) -> GValue {
        match self.schema.resolve(t) {
            GType::Bool => GValue::Bool(rng.bool()),
            GType::Long => GValue::Long(pools::long(rng)),
            GType::Str => GValue::Str(pools::string(rng)),
            GType::Ent(n) => {
                let pool = self.pools.get(n).cloned().unwrap_or_default();
                let is_enum = self.schema.entity_type(n).map(|e| e.enum_ids.is_some()).unwrap_or(false) || n == "Action" || n.ends_with("::Action");
                if pool.is_empty() || (!is_enum && rng.chance(1, 10)) {
                    GValue::Ent(Uid::new(n, "zz-dangling"))
                } else {
                    GValue::Ent(rng.pick_clone(&pool))
                }
            }
            GType::Set(e) => {
                let n = if depth == 0 { 0 } else { rng.below(4) };
                GValue::set((0..n).map(|_| self.value_of_type(rng, e, depth.saturating_sub(1))).collect())
            }
            GType::Rec(attrs) => GValue::Rec(self.record_of(rng, attrs, depth)),
            GType::Ext(n) => crate::gen::ext_value(
                rng,
                match n.as_str() {
                    "decimal" => Kind::Decimal,
                    "ipaddr" => Kind::Ip,
                    "datetime" => Kind::Datetime,
                    _ => Kind::Duration,
                },
            ),
            GType::Common(_) => GValue::Bool(false), // unresolvable; not generated
        }
    }

    pub fn record_of(&self, rng: &mut Rng, attrs: &[GAttr], depth: usize) -> BTreeMap<String, GValue> {
        let mut m = BTreeMap::new();
        for a in attrs {
            if a.required || rng.bool() {
                m.insert(a.name.clone(), self.value_of_type(rng, &a.ty, depth.saturating_sub(1).max(1)));
            }
        }
        m
    }

    /// A world conforming to the schema for request environment `env`.
    /// Action entities are included (direct parents = declared memberOf, no attributes).
    pub fn world(&self, rng: &mut Rng, env: &Env) -> GWorld {
        let mut order: Vec<Uid> = self.pools.values().flatten().cloned().collect();
        rng.shuffle(&mut order);
        let pos: BTreeMap<Uid, usize> = order.iter().cloned().enumerate().map(|(i, u)| (u, i)).collect();
        let mut entities: BTreeMap<Uid, GEntity> = BTreeMap::new();
        for u in &order {
            if rng.chance(1, 5) {
                continue; // absent
            }
            let et = match self.schema.entity_type(&u.ty) {
                Some(e) => e,
                None => continue,
            };
            let mut e = GEntity::default();
            if et.enum_ids.is_none() {
                for m in &et.member_of {
                    for cand in self.pools.get(m).into_iter().flatten() {
                        // only "later" uids => acyclic
                        if pos[cand] > pos[u] && rng.chance(2, 5) {
                            e.parents.insert(cand.clone());
                        }
                    }
                }
                e.attrs = self.record_of(rng, &et.attrs, 3);
                if let Some(tt) = &et.tags {
                    for _ in 0..rng.below(3) {
                        e.tags.insert(rng.pick(&["k", "t", ""]).to_string(), self.value_of_type(rng, tt, 2));
                    }
                }
            }
            entities.insert(u.clone(), e);
        }
        for a in &self.schema.actions {
            let mut e = GEntity::default();
            e.parents = a.member_of.iter().cloned().collect();
            entities.insert(a.uid(), e);
        }
        let pick = |rng: &mut Rng, ty: &str| {
            let pool = self.pools.get(ty).cloned().unwrap_or_default();
            let is_enum = self.schema.entity_type(ty).map(|e| e.enum_ids.is_some()).unwrap_or(false);
            if pool.is_empty() || (!is_enum && rng.chance(1, 12)) {
                Uid::new(ty, "zz-unknown")
            } else {
                rng.pick_clone(&pool)
            }
        };
        GWorld {
            principal: pick(rng, &env.principal_ty),
            action: env.action.clone(),
            resource: pick(rng, &env.resource_ty),
            context: self.record_of(rng, &env.context, 3),
            entities,
        }
    }
}

/// Does `v` conform to `t` (harness-side check used for sanity and by mutators)?
pub fn conforms(s: &GSchema, v: &GValue, t: &GType) -> bool {
    match (s.resolve(t), v) {
        (GType::Bool, GValue::Bool(_)) | (GType::Long, GValue::Long(_)) | (GType::Str, GValue::Str(_)) => true,
        (GType::Ent(n), GValue::Ent(u)) => {
            &u.ty == n
                && match s.entity_type(n).and_then(|e| e.enum_ids.as_ref()) {
                    Some(ids) => ids.contains(&u.id),
                    None => true,
                }
        }
        (GType::Set(e), GValue::Set(xs)) => xs.iter().all(|x| conforms(s, x, e)),
        (GType::Rec(attrs), GValue::Rec(m)) => {
            attrs.iter().all(|a| match m.get(&a.name) {
                Some(x) => conforms(s, x, &a.ty),
                None => !a.required,
            }) && m.keys().all(|k| attrs.iter().any(|a| &a.name == k))
        }
        (GType::Ext(n), GValue::Ext(x)) => matches!(
            (n.as_str(), x),
            ("decimal", ExtVal::Decimal(_)) | ("ipaddr", ExtVal::Ip { .. }) | ("datetime", ExtVal::Datetime(_)) | ("duration", ExtVal::Duration(_))
        ),
        _ => false,
    }
}

// ===================================================================== type-directed expressions

#[derive(Clone, Debug)]
pub struct Path {
    pub expr: GExpr,
    pub ty: GType,
    /// guards (outermost first) that make the access safe
    pub guards: Vec<GExpr>,
}

pub struct TypedGen<'a> {
    pub rng: &'a mut Rng,
    pub schema: &'a GSchema,
    pub env: &'a Env,
    pub pools: &'a BTreeMap<String, Vec<Uid>>,
    pub paths: Vec<Path>,
    /// percent chance to omit a required guard (produces programs expected to be rejected)
    pub omit_guard: u32,
    /// percent chance to use an operand of the wrong type
    pub mistype: u32,
    /// how many guards were omitted / operands mistyped in what was generated so far
    pub faults: u32,
    pub allow_tags: bool,
    pub allow_ext: bool,
}

pub const TAG_KEYS: [&str; 2] = ["k", "t"];

impl<'a> TypedGen<'a> {
    pub fn new(rng: &'a mut Rng, schema: &'a GSchema, env: &'a Env, pools_: &'a BTreeMap<String, Vec<Uid>>) -> Self {
        let mut g = TypedGen { rng, schema, env, pools: pools_, paths: vec![], omit_guard: 0, mistype: 0, faults: 0, allow_tags: true, allow_ext: true };
        g.paths = g.enumerate_paths(3);
        g
    }

    fn enumerate_paths(&self, max_len: usize) -> Vec<Path> {
        let mut out: Vec<Path> = vec![
            Path { expr: GExpr::Var(Var::Principal), ty: GType::Ent(self.env.principal_ty.clone()), guards: vec![] },
            Path { expr: GExpr::Var(Var::Resource), ty: GType::Ent(self.env.resource_ty.clone()), guards: vec![] },
            Path { expr: GExpr::Var(Var::Context), ty: GType::Rec(self.env.context.clone()), guards: vec![] },
        ];
        let mut frontier = out.clone();
        for _ in 0..max_len {
            let mut next = vec![];
            for p in &frontier {
                let attrs: Vec<GAttr> = match self.schema.resolve(&p.ty) {
                    GType::Ent(n) => {
                        let et = self.schema.entity_type(n);
                        if let (Some(et), true) = (et, self.allow_tags) {
                            if let Some(tt) = &et.tags {
                                for k in TAG_KEYS {
                                    let mut guards = p.guards.clone();
                                    guards.push(GExpr::bin(BinOp::HasTag, p.expr.clone(), GExpr::Str(k.into())));
                                    next.push(Path { expr: GExpr::bin(BinOp::GetTag, p.expr.clone(), GExpr::Str(k.into())), ty: tt.clone(), guards });
                                }
                            }
                        }
                        et.map(|e| e.attrs.clone()).unwrap_or_default()
                    }
                    GType::Rec(attrs) => attrs.clone(),
                    _ => vec![],
                };
                for a in attrs {
                    let mut guards = p.guards.clone();
                    if !a.required {
                        guards.push(GExpr::Has(p.expr.clone().b(), vec![a.name.clone()]));
                    }
                    next.push(Path { expr: GExpr::Attr(p.expr.clone().b(), a.name.clone()), ty: a.ty.clone(), guards });
                }
            }
            out.extend(next.iter().cloned());
            frontier = next;
            if out.len() > 400 {
                break;
            }
        }
        out
    }

    fn same_type(&self, a: &GType, b: &GType) -> bool {
        self.schema.expand(a) == self.schema.expand(b)
    }

    fn path_of(&mut self, t: &GType, guards: &mut Vec<GExpr>) -> Option<GExpr> {
        let cands: Vec<usize> = self.paths.iter().enumerate().filter(|(_, p)| self.same_type(&p.ty, t)).map(|(i, _)| i).collect();
        if cands.is_empty() {
            return None;
        }
        let p = self.paths[*self.rng.pick(&cands)].clone();
        for g in p.guards {
            if self.omit_guard > 0 && self.rng.chance(self.omit_guard, 100) {
                self.faults += 1;
                continue;
            }
            if !guards.contains(&g) {
                guards.push(g);
            }
        }
        Some(p.expr)
    }

    fn wrap(&mut self, guards: Vec<GExpr>, body: GExpr) -> GExpr {
        // g1 && (g2 && body): guards are to the left of everything that needs them
        let mut e = body;
        for g in guards.into_iter().rev() {
            e = GExpr::and(g, e);
        }
        e
    }

    fn uid_of_type(&mut self, ty: &str) -> Uid {
        let pool = self.pools.get(ty).cloned().unwrap_or_default();
        // enumerated entity types and action types only have their declared ids
        let is_enum = self.schema.entity_type(ty).map(|e| e.enum_ids.is_some()).unwrap_or(false) || ty == "Action" || ty.ends_with("::Action");
        if pool.is_empty() || (!is_enum && self.rng.chance(1, 8)) {
            Uid::new(ty, "zz-lit")
        } else {
            self.rng.pick_clone(&pool)
        }
    }

    fn ext_literal(&mut self, n: &str) -> GExpr {
        match n {
            "decimal" => GExpr::call("decimal", vec![GExpr::Str(self.rng.pick(&["0.0", "1.5", "-2.25", "10.0001", "922337203685477.5807"]).to_string())]),
            "ipaddr" => GExpr::call("ip", vec![GExpr::Str(self.rng.pick(&["127.0.0.1", "10.0.0.0/8", "::1", "ff00::/8", "192.168.1.7/24"]).to_string())]),
            "datetime" => GExpr::call("datetime", vec![GExpr::Str(self.rng.pick(&["1970-01-01", "2024-02-29T12:00:00Z", "1969-12-31T23:59:59.999Z", "9999-12-31"]).to_string())]),
            _ => GExpr::call("duration", vec![GExpr::Str(self.rng.pick(&["0ms", "1d", "-1h", "1d2h3m4s5ms", "9223372036854775807ms"]).to_string())]),
        }
    }

    /// expression of (exactly) type `t`; guards needed by optional accesses are pushed to `guards`
    pub fn of_type(&mut self, t: &GType, depth: usize, guards: &mut Vec<GExpr>) -> GExpr {
        let t = self.schema.resolve(t).clone();
        if self.mistype > 0 && self.rng.chance(self.mistype, 100) {
            self.faults += 1;
            let wrong = match t {
                GType::Long => GType::Str,
                GType::Str => GType::Long,
                GType::Bool => GType::Long,
                _ => GType::Bool,
            };
            return self.of_type(&wrong, 0, guards);
        }
        if matches!(t, GType::Bool) {
            return self.bool_expr(depth);
        }
        // access path
        if self.rng.chance(if depth == 0 { 3 } else { 2 }, 5) {
            if let Some(e) = self.path_of(&t, guards) {
                return e;
            }
        }
        if depth > 0 && self.rng.chance(1, 8) {
            // if-then-else with both branches of exactly this type
            let c = self.bool_expr(depth - 1);
            let a = self.of_type(&t, depth - 1, guards);
            let b = self.of_type(&t, depth - 1, guards);
            return GExpr::ite(c, a, b);
        }
        match &t {
            GType::Long => {
                if depth > 0 && self.rng.chance(1, 3) {
                    let a = self.of_type(&GType::Long, depth - 1, guards);
                    match self.rng.below(4) {
                        0 => GExpr::Neg(a.b()),
                        1 => GExpr::bin(BinOp::Mul, a, GExpr::Long(self.rng.range(-3, 3))),
                        2 => {
                            let b = self.of_type(&GType::Long, depth - 1, guards);
                            GExpr::bin(BinOp::Sub, a, b)
                        }
                        _ => {
                            let b = self.of_type(&GType::Long, depth - 1, guards);
                            GExpr::bin(BinOp::Add, a, b)
                        }
                    }
                } else {
                    GExpr::Long(pools::long(self.rng))
                }
            }
            GType::Str => GExpr::Str(pools::string(self.rng)),
            GType::Ent(n) => GExpr::Ent(self.uid_of_type(n)),
            GType::Set(e) => {
                // strict validation refuses the empty set literal: at least one element
                let n = 1 + self.rng.below(3);
                let mut xs = vec![];
                for _ in 0..n {
                    xs.push(self.of_type(e, depth.saturating_sub(1), guards));
                }
                GExpr::Set(xs)
            }
            GType::Rec(attrs) => {
                // a literal has exactly the required-attribute record type, so only used when no attribute is optional
                if attrs.iter().all(|a| a.required) {
                    let mut fs = vec![];
                    for a in attrs {
                        fs.push((a.name.clone(), self.of_type(&a.ty, depth.saturating_sub(1), guards)));
                    }
                    GExpr::Rec(fs)
                } else {
                    match self.path_of(&t, guards) {
                        Some(e) => e,
                        None => {
                            // no way to build exactly this type (a literal has all-required attributes):
                            // the literal below has a different record type, so this program is outside the
                            // fault-free family
                            self.faults += 1;
                            let mut fs = vec![];
                            for a in attrs {
                                fs.push((a.name.clone(), self.of_type(&a.ty, depth.saturating_sub(1), guards)));
                            }
                            GExpr::Rec(fs)
                        }
                    }
                }
            }
            GType::Ext(n) => {
                if depth > 0 && n == "datetime" && self.rng.chance(1, 4) {
                    let a = self.of_type(&t, depth - 1, guards);
                    if self.rng.bool() {
                        GExpr::call("toDate", vec![a])
                    } else {
                        let d = self.of_type(&GType::Ext("duration".into()), depth - 1, guards);
                        GExpr::call("offset", vec![a, d])
                    }
                } else if depth > 0 && n == "duration" && self.rng.chance(1, 4) {
                    let a = self.of_type(&GType::Ext("datetime".into()), depth - 1, guards);
                    if self.rng.bool() {
                        GExpr::call("toTime", vec![a])
                    } else {
                        let b = self.of_type(&GType::Ext("datetime".into()), depth - 1, guards);
                        GExpr::call("durationSince", vec![a, b])
                    }
                } else {
                    self.ext_literal(n)
                }
            }
            GType::Bool | GType::Common(_) => GExpr::Bool(true),
        }
    }

    fn some_entity_type(&mut self) -> String {
        let names: Vec<String> = self.schema.entity_types.iter().map(|e| e.name.clone()).collect();
        self.rng.pick_clone(&names)
    }

    fn some_path_type(&mut self, pred: impl Fn(&GType) -> bool) -> Option<GType> {
        let ts: Vec<GType> = self.paths.iter().map(|p| self.schema.expand(&p.ty)).filter(|t| pred(t)).collect();
        if ts.is_empty() {
            None
        } else {
            Some(self.rng.pick_clone(&ts))
        }
    }

    /// boolean expression; wraps itself in the guards its non-boolean operands need
    pub fn bool_expr(&mut self, depth: usize) -> GExpr {
        let mut guards: Vec<GExpr> = vec![];
        let body = self.bool_body(depth, &mut guards);
        self.wrap(guards, body)
    }

    fn bool_body(&mut self, depth: usize, guards: &mut Vec<GExpr>) -> GExpr {
        if depth == 0 {
            if let Some(e) = self.path_of(&GType::Bool, guards) {
                return e;
            }
            return GExpr::Bool(self.rng.bool());
        }
        let d = depth - 1;
        match self.rng.below(20) {
            0 => GExpr::Not(self.bool_expr(d).b()),
            1 | 2 => {
                let a = self.bool_expr(d);
                let b = self.bool_expr(d);
                GExpr::and(a, b)
            }
            3 => {
                let a = self.bool_expr(d);
                let b = self.bool_expr(d);
                GExpr::or(a, b)
            }
            4 => {
                let c = self.bool_expr(d);
                let a = self.bool_expr(d);
                let b = self.bool_expr(d);
                GExpr::ite(c, a, b)
            }
            5 | 6 => {
                let op = *self.rng.pick(&[BinOp::Lt, BinOp::Le, BinOp::Gt, BinOp::Ge]);
                let t = if self.allow_ext && self.rng.chance(1, 5) { GType::Ext(self.rng.pick(&["datetime", "duration"]).to_string()) } else { GType::Long };
                let a = self.of_type(&t, d, guards);
                let b = self.of_type(&t, d, guards);
                GExpr::bin(op, a, b)
            }
            7 | 8 => {
                // equality on two operands of exactly the same type
                let t = match self.some_path_type(|t| !matches!(t, GType::Bool)) {
                    Some(t) if self.rng.chance(3, 4) => t,
                    _ => self.rng.pick_clone(&[GType::Long, GType::Str]),
                };
                let op = if self.rng.chance(3, 4) { BinOp::Eq } else { BinOp::Neq };
                let a = self.of_type(&t, d, guards);
                let b = self.of_type(&t, d, guards);
                GExpr::bin(op, a, b)
            }
            9 | 10 => {
                // membership
                let lt = self.some_path_type(|t| matches!(t, GType::Ent(_))).unwrap_or(GType::Ent(self.env.principal_ty.clone()));
                let a = self.of_type(&lt, d, guards);
                let rt = GType::Ent(self.some_entity_type());
                let b = if self.rng.bool() {
                    self.of_type(&rt, d, guards)
                } else {
                    self.of_type(&GType::Set(Box::new(rt)), d, guards)
                };
                GExpr::bin(BinOp::In, a, b)
            }
            11 => {
                // has on a declared attribute of an entity / record path
                let cands: Vec<(GExpr, Vec<GExpr>, String)> = self
                    .paths
                    .iter()
                    .filter_map(|p| {
                        let attrs: Vec<GAttr> = match self.schema.resolve(&p.ty) {
                            GType::Ent(n) => self.schema.entity_type(n).map(|e| e.attrs.clone()).unwrap_or_default(),
                            GType::Rec(a) => a.clone(),
                            _ => vec![],
                        };
                        if attrs.is_empty() {
                            None
                        } else {
                            Some((p.expr.clone(), p.guards.clone(), attrs[0].name.clone(), attrs))
                        }
                    })
                    .flat_map(|(e, g, _, attrs)| attrs.into_iter().map(move |a| (e.clone(), g.clone(), a.name)))
                    .collect();
                if cands.is_empty() {
                    return GExpr::Bool(true);
                }
                let (e, g, a) = self.rng.pick_clone(&cands);
                for x in g {
                    if !guards.contains(&x) {
                        guards.push(x);
                    }
                }
                GExpr::Has(e.b(), vec![a])
            }
            12 if self.allow_tags => {
                let cands: Vec<Path> = self
                    .paths
                    .iter()
                    .filter(|p| match self.schema.resolve(&p.ty) {
                        GType::Ent(n) => self.schema.entity_type(n).map(|e| e.tags.is_some()).unwrap_or(false),
                        _ => false,
                    })
                    .cloned()
                    .collect();
                if cands.is_empty() {
                    return GExpr::Bool(false);
                }
                let p = self.rng.pick_clone(&cands);
                for x in p.guards {
                    if !guards.contains(&x) {
                        guards.push(x);
                    }
                }
                GExpr::bin(BinOp::HasTag, p.expr, GExpr::Str(self.rng.pick(&TAG_KEYS).to_string()))
            }
            13 | 14 => {
                // set operations
                let st = match self.some_path_type(|t| matches!(t, GType::Set(_))) {
                    Some(t) => t,
                    None => GType::Set(Box::new(GType::Long)),
                };
                let elem = match &st {
                    GType::Set(e) => (**e).clone(),
                    _ => GType::Long,
                };
                let s = self.of_type(&st, d, guards);
                match self.rng.below(4) {
                    0 => GExpr::IsEmpty(s.b()),
                    1 | 2 => {
                        let x = self.of_type(&elem, d, guards);
                        GExpr::bin(BinOp::Contains, s, x)
                    }
                    _ => {
                        let t = self.of_type(&st, d, guards);
                        GExpr::bin(if self.rng.bool() { BinOp::ContainsAll } else { BinOp::ContainsAny }, s, t)
                    }
                }
            }
            15 => {
                let s = self.of_type(&GType::Str, d, guards);
                GExpr::Like(s.b(), pools::pattern(self.rng))
            }
            16 => {
                let lt = self.some_path_type(|t| matches!(t, GType::Ent(_))).unwrap_or(GType::Ent(self.env.resource_ty.clone()));
                let a = self.of_type(&lt, d, guards);
                let ty = if self.rng.bool() {
                    match &lt {
                        GType::Ent(n) => n.clone(),
                        _ => self.some_entity_type(),
                    }
                } else {
                    self.some_entity_type()
                };
                let inn = if self.rng.chance(1, 3) {
                    let rt = GType::Ent(self.some_entity_type());
                    Some(self.of_type(&rt, d, guards).b())
                } else {
                    None
                };
                GExpr::Is(a.b(), ty, inn)
            }
            17 if self.allow_ext => {
                let a = self.of_type(&GType::Ext("decimal".into()), d, guards);
                let b = self.of_type(&GType::Ext("decimal".into()), d, guards);
                GExpr::call(self.rng.pick(&["lessThan", "lessThanOrEqual", "greaterThan", "greaterThanOrEqual"]), vec![a, b])
            }
            18 if self.allow_ext => {
                let a = self.of_type(&GType::Ext("ipaddr".into()), d, guards);
                if self.rng.bool() {
                    GExpr::call(self.rng.pick(&["isIpv4", "isIpv6", "isLoopback", "isMulticast"]), vec![a])
                } else {
                    let b = self.of_type(&GType::Ext("ipaddr".into()), d, guards);
                    GExpr::call("isInRange", vec![a, b])
                }
            }
            _ => {
                if let Some(e) = self.path_of(&GType::Bool, guards) {
                    e
                } else {
                    // action / scope-like tests
                    match self.rng.below(3) {
                        0 => GExpr::eq(GExpr::Var(Var::Action), GExpr::Ent(self.env.action.clone())),
                        1 => {
                            let acts: Vec<Uid> = self.schema.actions.iter().map(|a| a.uid()).collect();
                            GExpr::bin(BinOp::In, GExpr::Var(Var::Action), GExpr::Ent(self.rng.pick_clone(&acts)))
                        }
                        _ => GExpr::Bool(self.rng.bool()),
                    }
                }
            }
        }
    }
}

/// A policy whose scope mentions only declared types/actions and whose conditions are type-directed.
pub fn typed_policy(g: &mut TypedGen, depth: usize) -> GPolicy {
    let effect = if g.rng.chance(3, 4) { Effect::Permit } else { Effect::Forbid };
    // the scope pins the request environment (principal type, action, resource type), so the
    // conditions -- generated for `env` -- are only ever typechecked against `env`
    let pr = |g: &mut TypedGen, ty: String| -> ScopePR {
        match g.rng.below(6) {
            0 => ScopePR::Eq(EntOrSlot::Ent(g.uid_of_type(&ty))),
            1 => {
                // `is T in X` only makes sense when entities of type T can be descendants of X's type
                let cands: Vec<String> = g.schema.entity_types.iter().map(|e| e.name.clone()).filter(|t| *t == ty || g.schema.type_can_descend(&ty, t)).collect();
                if cands.is_empty() {
                    ScopePR::Is(ty)
                } else {
                    let t = g.rng.pick_clone(&cands);
                    ScopePR::IsIn(ty, EntOrSlot::Ent(g.uid_of_type(&t)))
                }
            }
            _ => ScopePR::Is(ty),
        }
    };
    let principal = pr(g, g.env.principal_ty.clone());
    let resource = pr(g, g.env.resource_ty.clone());
    // (`action in [..]` would also match the actions that are members of the listed ones, i.e. other environments)
    let action = ScopeA::Eq(g.env.action.clone());
    let mut conds = vec![];
    for _ in 0..1 + g.rng.below(2) {
        conds.push((g.rng.chance(3, 4), g.bool_expr(depth)));
    }
    GPolicy { annotations: vec![], effect, principal, action, resource, conds }
}
