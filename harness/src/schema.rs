//! Schema model (placeholder)
