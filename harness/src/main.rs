//! cvmon — runtime monitors for the Cedar properties C01..C20.
//!
//!   cvmon run <ID> --seed S --tier quick|thorough --shard i/K --cases N --secs T --out DIR [--case IDX] [-v]
//!   cvmon merge-hashes FILE...
//!
//! Case `idx` of property P under seed S is a pure function of (P, S, idx);
//! shard i of K runs idx = i, i+K, i+2K, ...

#![allow(clippy::all)]

mod bridge;
mod ext;
mod gen;
mod model;
mod monitors;
mod pools;
mod refsem;
mod render;
mod report;
mod rng;
mod schema;

use report::{CaseCtx, Report, Tier};
use std::cell::RefCell;
use std::io::Write;
use std::panic::{catch_unwind, AssertUnwindSafe};
use std::time::{Duration, Instant};

/// run-wide configuration some monitors need (C19: the `cedar` binary, a scratch directory)
pub struct Config {
    pub cli: Option<String>,
    pub out: String,
}
pub static CONFIG: std::sync::OnceLock<Config> = std::sync::OnceLock::new();

thread_local! {
    static LAST_PANIC: RefCell<Option<(String, String)>> = const { RefCell::new(None) };
}

fn install_panic_hook() {
    std::panic::set_hook(Box::new(|info| {
        let loc = info.location().map(|l| format!("{}:{}", l.file(), l.line())).unwrap_or_else(|| "?".into());
        let msg = if let Some(s) = info.payload().downcast_ref::<&str>() {
            s.to_string()
        } else if let Some(s) = info.payload().downcast_ref::<String>() {
            s.clone()
        } else {
            "<non-string panic>".into()
        };
        LAST_PANIC.with(|p| *p.borrow_mut() = Some((loc, msg)));
    }));
}

pub fn take_last_panic() -> Option<(String, String)> {
    LAST_PANIC.with(|p| p.borrow_mut().take())
}

/// A panic whose location is inside the code under test (not the harness)
pub fn is_library_location(loc: &str) -> bool {
    !(loc.starts_with("src/") || loc.contains("/verif/harness/"))
}

fn arg_val(args: &[String], name: &str) -> Option<String> {
    args.iter().position(|a| a == name).and_then(|i| args.get(i + 1).cloned())
}

fn main() {
    let args: Vec<String> = std::env::args().collect();
    if args.len() < 2 {
        eprintln!("usage: cvmon run <ID> ... | cvmon merge-hashes FILE...");
        std::process::exit(2);
    }
    match args[1].as_str() {
        "merge-hashes" => {
            let n = report::count_union(&args[2..]).expect("merge-hashes");
            println!("{}", n);
        }
        "run" => run(&args[2..]),
        _ => {
            eprintln!("unknown command");
            std::process::exit(2);
        }
    }
}

fn run(args: &[String]) {
    let prop = args.first().expect("property id").clone();
    let seed: u64 = arg_val(args, "--seed").map(|s| s.parse().expect("seed")).unwrap_or(1);
    let tier = match arg_val(args, "--tier").as_deref() {
        Some("thorough") => Tier::Thorough,
        _ => Tier::Quick,
    };
    let (shard, nshards) = match arg_val(args, "--shard") {
        Some(s) => {
            let (a, b) = s.split_once('/').expect("--shard i/K");
            (a.parse::<u64>().expect("shard"), b.parse::<u64>().expect("nshards"))
        }
        None => (0, 1),
    };
    let max_cases: u64 = arg_val(args, "--cases").map(|s| s.parse().expect("cases")).unwrap_or(1000);
    let secs: f64 = arg_val(args, "--secs").map(|s| s.parse().expect("secs")).unwrap_or(30.0);
    let out = arg_val(args, "--out").unwrap_or_else(|| ".".into());
    let only_case: Option<u64> = arg_val(args, "--case").map(|s| s.parse().expect("case"));
    let verbose = args.iter().any(|a| a == "-v");
    let _ = CONFIG.set(Config { cli: arg_val(args, "--cli"), out: out.clone() });

    let monitor = monitors::lookup(&prop).unwrap_or_else(|| {
        eprintln!("no monitor for {}", prop);
        std::process::exit(2);
    });

    install_panic_hook();
    let _ = std::fs::create_dir_all(&out);
    let mut journal = std::fs::File::create(format!("{}/shard-{}.journal", out, shard)).expect("journal");
    let mut rep = Report::new(&prop);
    let start = Instant::now();
    let deadline = start + Duration::from_secs_f64(secs);
    let pseed = rng::mix(seed, rng::hash_str(&prop));

    let mut k: u64 = 0;
    loop {
        let idx = match only_case {
            Some(c) => c,
            None => shard + k * nshards,
        };
        if only_case.is_none() && (k >= max_cases || Instant::now() >= deadline) {
            break;
        }
        // write-ahead: a worker killed by a signal still names the case it was on
        let _ = writeln!(journal, "{}", idx);
        rep.cases += 1;
        let mut ctx = CaseCtx { idx, rng: rng::Rng::derive(pseed, idx, 0), tier, seed, rep: &mut rep, verbose: verbose || only_case.is_some() };
        let r = catch_unwind(AssertUnwindSafe(|| monitor(&mut ctx)));
        if r.is_err() {
            let (loc, msg) = take_last_panic().unwrap_or(("?".into(), "?".into()));
            if is_library_location(&loc) {
                // signature = file (without the line, which moves with unrelated edits) + start of the message
                let file = loc.rsplit_once(':').map(|(f, _)| f).unwrap_or(&loc).to_string();
                let head: String = msg.chars().take(48).map(|c| if c.is_control() { ' ' } else { c }).collect();
                ctx.violation(&format!("panic:{}:{}", file, head.trim()), format!("panic inside the library at {}: {}", loc, msg), serde_json::json!({"location": loc, "message": msg}));
            } else {
                ctx.harness_error(format!("harness panic at {}: {}", loc, msg));
            }
        }
        k += 1;
        if only_case.is_some() {
            break;
        }
    }
    let _ = writeln!(journal, "done");
    let mut j = rep.to_json();
    j["shard"] = serde_json::json!(shard);
    j["nshards"] = serde_json::json!(nshards);
    j["seed"] = serde_json::json!(seed);
    j["wall_s"] = serde_json::json!(start.elapsed().as_secs_f64());
    std::fs::write(format!("{}/shard-{}.json", out, shard), serde_json::to_string(&j).unwrap()).expect("write report");
    report::write_hashes(&format!("{}/shard-{}.hashes", out, shard), &rep.hashes).expect("write hashes");
    if only_case.is_some() {
        println!("{}", serde_json::to_string_pretty(&j["violations"]).unwrap());
        if !rep.violations.is_empty() {
            std::process::exit(1);
        }
        if !rep.harness_errors.is_empty() {
            std::process::exit(3);
        }
    }
}
