//! Renderers: GExpr/GPolicy -> Cedar text (randomised) and -> JSON policy (EST);
//! GValue/GWorld -> JSON.  Written from the published formats, not by calling
//! the library's printers.

use crate::model::*;
use crate::rng::Rng;
use serde_json::{json, Map, Value as J};

pub const RESERVED: [&str; 9] = ["true", "false", "if", "then", "else", "in", "is", "like", "has"];

pub fn is_ident_shape(s: &str) -> bool {
    let mut cs = s.chars();
    match cs.next() {
        Some(c) if c == '_' || c.is_ascii_alphabetic() => {}
        _ => return false,
    }
    cs.all(|c| c == '_' || c.is_ascii_alphanumeric())
}

/// usable after `.` and as a bare record key
pub fn is_plain_ident(s: &str) -> bool {
    is_ident_shape(s) && !RESERVED.contains(&s) && s != "__cedar"
}

#[derive(Clone, Copy, Debug, PartialEq, Eq)]
pub enum ParenMode {
    Minimal,
    Full,
    Redundant,
}

#[derive(Clone, Copy, Debug, PartialEq, Eq)]
pub enum EscMode {
    /// only what must be escaped
    Plain,
    /// each character independently raw or escaped
    Random,
}

pub struct TextOpts<'r> {
    pub paren: ParenMode,
    pub esc: EscMode,
    /// choose `["a"]` over `.a` sometimes even when `.a` is possible
    pub random_access_style: bool,
    pub rng: &'r mut Rng,
}

impl<'r> TextOpts<'r> {
    pub fn plain(rng: &'r mut Rng) -> Self {
        TextOpts { paren: ParenMode::Minimal, esc: EscMode::Plain, random_access_style: false, rng }
    }
    pub fn random(rng: &'r mut Rng) -> Self {
        let paren = match rng.below(4) {
            0 => ParenMode::Full,
            1 => ParenMode::Redundant,
            _ => ParenMode::Minimal,
        };
        let esc = if rng.bool() { EscMode::Random } else { EscMode::Plain };
        TextOpts { paren, esc, random_access_style: true, rng }
    }
}

fn esc_char(c: char, in_pattern: bool, o: &mut TextOpts) -> String {
    let must = matches!(c, '"' | '\\' | '\n' | '\r' | '\t' | '\0') || (in_pattern && c == '*') || (c as u32) < 0x20 || c == '\u{7f}';
    let do_esc = must || (o.esc == EscMode::Random && o.rng.chance(1, 4));
    if !do_esc {
        return c.to_string();
    }
    match c {
        '"' => "\\\"".into(),
        '\\' => "\\\\".into(),
        '\n' => "\\n".into(),
        '\r' => "\\r".into(),
        '\t' => "\\t".into(),
        '\0' => "\\0".into(),
        '\'' if o.esc == EscMode::Random && o.rng.bool() => "\\'".into(),
        '*' if in_pattern => "\\*".into(),
        c => {
            if o.esc == EscMode::Random && (c as u32) < 0x80 && o.rng.bool() {
                format!("\\x{:02x}", c as u32)
            } else {
                format!("\\u{{{:x}}}", c as u32)
            }
        }
    }
}

pub fn str_lit(s: &str, o: &mut TextOpts) -> String {
    let mut out = String::from("\"");
    for c in s.chars() {
        out.push_str(&esc_char(c, false, o));
    }
    out.push('"');
    out
}

pub fn pattern_lit(p: &[PatElem], o: &mut TextOpts) -> String {
    let mut out = String::from("\"");
    for e in p {
        match e {
            PatElem::Wild => out.push('*'),
            PatElem::Char(c) => out.push_str(&esc_char(*c, true, o)),
        }
    }
    out.push('"');
    out
}

pub fn uid_text(u: &Uid, o: &mut TextOpts) -> String {
    format!("{}::{}", u.ty, str_lit(&u.id, o))
}

// precedence levels
const P_IF: u8 = 0;
const P_OR: u8 = 1;
const P_AND: u8 = 2;
const P_REL: u8 = 3;
const P_ADD: u8 = 4;
const P_MUL: u8 = 5;
const P_UNARY: u8 = 6;
const P_MEMBER: u8 = 7;

fn prec(e: &GExpr) -> u8 {
    match e {
        GExpr::If(..) => P_IF,
        GExpr::Bin(op, _, _) => match op {
            BinOp::Or => P_OR,
            BinOp::And => P_AND,
            BinOp::Eq | BinOp::Neq | BinOp::Lt | BinOp::Le | BinOp::Gt | BinOp::Ge | BinOp::In => P_REL,
            BinOp::Add | BinOp::Sub => P_ADD,
            BinOp::Mul => P_MUL,
            _ => P_MEMBER,
        },
        GExpr::Has(..) | GExpr::Like(..) | GExpr::Is(..) => P_REL,
        GExpr::Not(_) | GExpr::Neg(_) => P_UNARY,
        GExpr::Long(n) if *n < 0 => P_UNARY,
        _ => P_MEMBER,
    }
}

fn unary_chain(e: &GExpr) -> (u8, usize) {
    // (kind: 1 = !, 2 = -, 0 none ; length of the chain of that operator as it will be lexed)
    match e {
        GExpr::Not(a) => {
            let (k, n) = unary_chain(a);
            if k == 1 {
                (1, n + 1)
            } else {
                (1, 1)
            }
        }
        GExpr::Neg(a) => {
            let (k, n) = unary_chain(a);
            if k == 2 {
                (2, n + 1)
            } else {
                (2, 1)
            }
        }
        GExpr::Long(n) if *n < 0 => (2, 1),
        _ => (0, 0),
    }
}

pub fn expr_tokens(e: &GExpr, o: &mut TextOpts, out: &mut Vec<String>) {
    sub(e, P_IF, o, out)
}

/// emit `e` in a position requiring precedence >= `need`
fn sub(e: &GExpr, need: u8, o: &mut TextOpts, out: &mut Vec<String>) {
    let is_leaf = matches!(e, GExpr::Bool(_) | GExpr::Str(_) | GExpr::Ent(_) | GExpr::Var(_) | GExpr::Slot(_)) || matches!(e, GExpr::Long(n) if *n >= 0);
    let mut parens = prec(e) < need;
    if !parens {
        match o.paren {
            ParenMode::Full => parens = !is_leaf,
            ParenMode::Redundant => parens = o.rng.chance(1, 5),
            ParenMode::Minimal => {}
        }
    }
    if parens {
        out.push("(".into());
        let extra = o.paren == ParenMode::Redundant && o.rng.chance(1, 8);
        if extra {
            out.push("(".into());
        }
        raw(e, o, out);
        if extra {
            out.push(")".into());
        }
        out.push(")".into());
    } else {
        raw(e, o, out);
    }
}

fn attr_access(k: &str, o: &mut TextOpts, out: &mut Vec<String>) {
    if is_plain_ident(k) && !(o.random_access_style && o.rng.chance(1, 4)) {
        out.push(".".into());
        out.push(k.to_string());
    } else {
        out.push("[".into());
        out.push(str_lit(k, o));
        out.push("]".into());
    }
}

fn comma_list(xs: &[GExpr], o: &mut TextOpts, out: &mut Vec<String>) {
    for (i, x) in xs.iter().enumerate() {
        if i > 0 {
            out.push(",".into());
        }
        sub(x, P_IF, o, out);
    }
}

fn raw(e: &GExpr, o: &mut TextOpts, out: &mut Vec<String>) {
    match e {
        GExpr::Bool(b) => out.push(b.to_string()),
        GExpr::Long(n) => out.push(n.to_string()),
        GExpr::Str(s) => out.push(str_lit(s, o)),
        GExpr::Ent(u) => out.push(uid_text(u, o)),
        GExpr::Var(v) => out.push(
            match v {
                Var::Principal => "principal",
                Var::Action => "action",
                Var::Resource => "resource",
                Var::Context => "context",
            }
            .into(),
        ),
        GExpr::Slot(s) => out.push(
            match s {
                Slot::Principal => "?principal",
                Slot::Resource => "?resource",
            }
            .into(),
        ),
        GExpr::Not(a) | GExpr::Neg(a) => {
            let (kind, sym) = if matches!(e, GExpr::Not(_)) { (1u8, "!") } else { (2u8, "-") };
            out.push(sym.into());
            // the grammar allows at most 4 of the same unary operator in a row and
            // no mixing without parentheses
            let (k, n) = unary_chain(a);
            let need_paren = (k != 0 && k != kind) || (k == kind && n >= 4);
            if need_paren {
                out.push("(".into());
                raw(a, o, out);
                out.push(")".into());
            } else if k == kind {
                // same operator: continue the chain (or parenthesise anyway in Full mode)
                if o.paren == ParenMode::Full {
                    out.push("(".into());
                    raw(a, o, out);
                    out.push(")".into());
                } else {
                    raw(a, o, out);
                }
            } else {
                sub(a, P_MEMBER, o, out);
            }
        }
        GExpr::Bin(op, a, b) => {
            if op.is_method() {
                sub(a, P_MEMBER, o, out);
                out.push(".".into());
                out.push(op.name().into());
                out.push("(".into());
                sub(b, P_IF, o, out);
                out.push(")".into());
            } else {
                let p = prec(e);
                let (lp, rp) = if p == P_REL { (P_ADD, P_ADD) } else { (p, p + 1) };
                sub(a, lp, o, out);
                out.push(op.name().into());
                sub(b, rp, o, out);
            }
        }
        GExpr::If(c, t, f) => {
            out.push("if".into());
            sub(c, P_IF, o, out);
            out.push("then".into());
            sub(t, P_IF, o, out);
            out.push("else".into());
            sub(f, P_IF, o, out);
        }
        GExpr::IsEmpty(a) => {
            sub(a, P_MEMBER, o, out);
            out.push(".".into());
            out.push("isEmpty".into());
            out.push("(".into());
            out.push(")".into());
        }
        GExpr::Has(a, path) => {
            sub(a, P_ADD, o, out);
            out.push("has".into());
            if path.len() == 1 && !(is_plain_ident(&path[0]) && !(o.random_access_style && o.rng.chance(1, 4))) {
                out.push(str_lit(&path[0], o));
            } else {
                for (i, k) in path.iter().enumerate() {
                    if i > 0 {
                        out.push(".".into());
                    }
                    out.push(k.clone());
                }
            }
        }
        GExpr::Attr(a, k) => {
            sub(a, P_MEMBER, o, out);
            attr_access(k, o, out);
        }
        GExpr::Like(a, p) => {
            sub(a, P_ADD, o, out);
            out.push("like".into());
            out.push(pattern_lit(p, o));
        }
        GExpr::Is(a, t, x) => {
            sub(a, P_ADD, o, out);
            out.push("is".into());
            out.push(t.clone());
            if let Some(x) = x {
                out.push("in".into());
                sub(x, P_ADD, o, out);
            }
        }
        GExpr::Set(xs) => {
            out.push("[".into());
            comma_list(xs, o, out);
            out.push("]".into());
        }
        GExpr::Rec(fs) => {
            out.push("{".into());
            for (i, (k, x)) in fs.iter().enumerate() {
                if i > 0 {
                    out.push(",".into());
                }
                if is_plain_ident(k) && !(o.random_access_style && o.rng.chance(1, 3)) {
                    out.push(k.clone());
                } else {
                    out.push(str_lit(k, o));
                }
                out.push(":".into());
                sub(x, P_IF, o, out);
            }
            out.push("}".into());
        }
        GExpr::Call(f, args) => {
            if crate::ext::is_method(f) && !args.is_empty() {
                sub(&args[0], P_MEMBER, o, out);
                out.push(".".into());
                out.push(f.clone());
                out.push("(".into());
                comma_list(&args[1..], o, out);
                out.push(")".into());
            } else {
                out.push(f.clone());
                out.push("(".into());
                comma_list(args, o, out);
                out.push(")".into());
            }
        }
    }
}

fn scope_pr_tokens(var: &str, slot: &str, sc: &ScopePR, o: &mut TextOpts, out: &mut Vec<String>) {
    out.push(var.into());
    let e = |x: &EntOrSlot, o: &mut TextOpts| match x {
        EntOrSlot::Ent(u) => uid_text(u, o),
        EntOrSlot::Slot => slot.to_string(),
    };
    match sc {
        ScopePR::Any => {}
        ScopePR::Eq(x) => {
            out.push("==".into());
            out.push(e(x, o));
        }
        ScopePR::In(x) => {
            out.push("in".into());
            out.push(e(x, o));
        }
        ScopePR::Is(t) => {
            out.push("is".into());
            out.push(t.clone());
        }
        ScopePR::IsIn(t, x) => {
            out.push("is".into());
            out.push(t.clone());
            out.push("in".into());
            out.push(e(x, o));
        }
    }
}

pub fn policy_tokens(p: &GPolicy, o: &mut TextOpts, out: &mut Vec<String>) {
    for (k, v) in &p.annotations {
        out.push(format!("@{}", k));
        out.push("(".into());
        out.push(str_lit(v, o));
        out.push(")".into());
    }
    out.push(match p.effect {
        Effect::Permit => "permit".into(),
        Effect::Forbid => "forbid".into(),
    });
    out.push("(".into());
    scope_pr_tokens("principal", "?principal", &p.principal, o, out);
    out.push(",".into());
    out.push("action".into());
    match &p.action {
        ScopeA::Any => {}
        ScopeA::Eq(u) => {
            out.push("==".into());
            out.push(uid_text(u, o));
        }
        ScopeA::In(u) => {
            out.push("in".into());
            out.push(uid_text(u, o));
        }
        ScopeA::InList(us) => {
            out.push("in".into());
            out.push("[".into());
            for (i, u) in us.iter().enumerate() {
                if i > 0 {
                    out.push(",".into());
                }
                out.push(uid_text(u, o));
            }
            out.push("]".into());
        }
    }
    out.push(",".into());
    scope_pr_tokens("resource", "?resource", &p.resource, o, out);
    out.push(")".into());
    for (is_when, c) in &p.conds {
        out.push(if *is_when { "when".into() } else { "unless".into() });
        out.push("{".into());
        expr_tokens(c, o, out);
        out.push("}".into());
    }
    out.push(";".into());
}

/// Join tokens with single spaces, except that no space is put around `.`,
/// before `(`/`[` that follow an identifier-like token, etc.  (Purely cosmetic:
/// Cedar's lexer ignores whitespace between tokens.)
pub fn join_plain(toks: &[String]) -> String {
    let mut s = String::new();
    for (i, t) in toks.iter().enumerate() {
        if i > 0 {
            let prev = &toks[i - 1];
            let tight = t == "." || prev == "." || t == "," || t == ")" || t == "]" || prev == "(" || prev == "[" || (t == "(" && prev.chars().last().map(|c| c.is_alphanumeric()).unwrap_or(false) && !["if", "then", "else", "in", "when", "unless", "has", "like", "is"].contains(&prev.as_str())) || prev == "!" || t == ";";
            if !tight {
                s.push(' ');
            }
        }
        s.push_str(t);
    }
    s
}

/// Join with random whitespace and (optionally) unique `//` comments at token boundaries.
pub fn join_noisy(toks: &[String], rng: &mut Rng, comment_tag: Option<&str>, counter: &mut usize) -> String {
    let mut s = String::new();
    for (i, t) in toks.iter().enumerate() {
        if i > 0 {
            match rng.below(10) {
                0 => s.push('\n'),
                1 => s.push_str("\n\n"),
                2 => s.push_str("  "),
                3 => s.push('\t'),
                4 | 5 if comment_tag.is_some() => {
                    *counter += 1;
                    s.push_str(&format!(" // {}-{}\n", comment_tag.unwrap(), counter));
                }
                _ => s.push(' '),
            }
        }
        s.push_str(t);
    }
    s
}

pub fn expr_text(e: &GExpr, o: &mut TextOpts) -> String {
    let mut t = vec![];
    expr_tokens(e, o, &mut t);
    join_plain(&t)
}

pub fn policy_text(p: &GPolicy, o: &mut TextOpts) -> String {
    let mut t = vec![];
    policy_tokens(p, o, &mut t);
    join_plain(&t)
}

// ------------------------------------------------------------------ JSON values

/// explicit (`__entity` / `__extn`) form
pub fn value_json(v: &GValue) -> J {
    match v {
        GValue::Bool(b) => json!(b),
        GValue::Long(n) => json!(n),
        GValue::Str(s) => json!(s),
        GValue::Ent(u) => json!({"__entity": {"type": u.ty, "id": u.id}}),
        GValue::Set(xs) => J::Array(xs.iter().map(value_json).collect()),
        GValue::Rec(m) => J::Object(m.iter().map(|(k, v)| (k.clone(), value_json(v))).collect()),
        GValue::Ext(x) => {
            let (f, s) = crate::ext::canonical_ctor(x);
            json!({"__extn": {"fn": f, "arg": s}})
        }
    }
}

pub fn uid_json(u: &Uid) -> J {
    json!({"type": u.ty, "id": u.id})
}

pub fn entities_json(w: &GWorld) -> J {
    J::Array(
        w.entities
            .iter()
            .map(|(u, e)| {
                let mut m = Map::new();
                m.insert("uid".into(), uid_json(u));
                m.insert("attrs".into(), J::Object(e.attrs.iter().map(|(k, v)| (k.clone(), value_json(v))).collect()));
                m.insert("parents".into(), J::Array(e.parents.iter().map(uid_json).collect()));
                if !e.tags.is_empty() {
                    m.insert("tags".into(), J::Object(e.tags.iter().map(|(k, v)| (k.clone(), value_json(v))).collect()));
                }
                J::Object(m)
            })
            .collect(),
    )
}

pub fn context_json(w: &GWorld) -> J {
    J::Object(w.context.iter().map(|(k, v)| (k.clone(), value_json(v))).collect())
}

// ------------------------------------------------------------------ JSON policy (EST)

pub fn est_expr(e: &GExpr) -> J {
    let bin = |k: &str, a: &GExpr, b: &GExpr| json!({k: {"left": est_expr(a), "right": est_expr(b)}});
    match e {
        GExpr::Bool(b) => json!({"Value": b}),
        GExpr::Long(n) => json!({"Value": n}),
        GExpr::Str(s) => json!({"Value": s}),
        GExpr::Ent(u) => json!({"Value": {"__entity": {"type": u.ty, "id": u.id}}}),
        GExpr::Var(v) => json!({"Var": match v {
            Var::Principal => "principal",
            Var::Action => "action",
            Var::Resource => "resource",
            Var::Context => "context",
        }}),
        GExpr::Slot(s) => json!({"Slot": match s {
            Slot::Principal => "?principal",
            Slot::Resource => "?resource",
        }}),
        GExpr::Not(a) => json!({"!": {"arg": est_expr(a)}}),
        GExpr::Neg(a) => json!({"neg": {"arg": est_expr(a)}}),
        GExpr::Bin(op, a, b) => bin(op.name(), a, b),
        GExpr::If(c, t, f) => json!({"if-then-else": {"if": est_expr(c), "then": est_expr(t), "else": est_expr(f)}}),
        GExpr::IsEmpty(a) => json!({"isEmpty": {"arg": est_expr(a)}}),
        GExpr::Has(a, path) => {
            if path.len() == 1 {
                json!({"has": {"left": est_expr(a), "attr": path[0]}})
            } else {
                json!({"has": {"left": est_expr(a), "attr": path}})
            }
        }
        GExpr::Attr(a, k) => json!({".": {"left": est_expr(a), "attr": k}}),
        GExpr::Like(a, p) => {
            let mut elems: Vec<J> = vec![];
            let mut cur = String::new();
            for x in p {
                match x {
                    PatElem::Char(c) => cur.push(*c),
                    PatElem::Wild => {
                        if !cur.is_empty() {
                            elems.push(json!({"Literal": cur}));
                            cur = String::new();
                        }
                        elems.push(json!("Wildcard"));
                    }
                }
            }
            if !cur.is_empty() {
                elems.push(json!({"Literal": cur}));
            }
            json!({"like": {"left": est_expr(a), "pattern": elems}})
        }
        GExpr::Is(a, t, x) => match x {
            None => json!({"is": {"left": est_expr(a), "entity_type": t}}),
            Some(x) => json!({"is": {"left": est_expr(a), "entity_type": t, "in": est_expr(x)}}),
        },
        GExpr::Set(xs) => json!({"Set": xs.iter().map(est_expr).collect::<Vec<_>>()}),
        GExpr::Rec(fs) => {
            let m: Map<String, J> = fs.iter().map(|(k, v)| (k.clone(), est_expr(v))).collect();
            json!({"Record": m})
        }
        GExpr::Call(f, args) => json!({f.as_str(): args.iter().map(est_expr).collect::<Vec<_>>()}),
    }
}

fn est_scope_pr(sc: &ScopePR, slot: &str) -> J {
    let ent = |x: &EntOrSlot, m: &mut Map<String, J>| match x {
        EntOrSlot::Ent(u) => {
            m.insert("entity".into(), uid_json(u));
        }
        EntOrSlot::Slot => {
            m.insert("slot".into(), json!(slot));
        }
    };
    let mut m = Map::new();
    match sc {
        ScopePR::Any => {
            m.insert("op".into(), json!("All"));
        }
        ScopePR::Eq(x) => {
            m.insert("op".into(), json!("=="));
            ent(x, &mut m);
        }
        ScopePR::In(x) => {
            m.insert("op".into(), json!("in"));
            ent(x, &mut m);
        }
        ScopePR::Is(t) => {
            m.insert("op".into(), json!("is"));
            m.insert("entity_type".into(), json!(t));
        }
        ScopePR::IsIn(t, x) => {
            m.insert("op".into(), json!("is"));
            m.insert("entity_type".into(), json!(t));
            let mut inn = Map::new();
            ent(x, &mut inn);
            m.insert("in".into(), J::Object(inn));
        }
    }
    J::Object(m)
}

pub fn est_policy(p: &GPolicy) -> J {
    let action = match &p.action {
        ScopeA::Any => json!({"op": "All"}),
        ScopeA::Eq(u) => json!({"op": "==", "entity": uid_json(u)}),
        ScopeA::In(u) => json!({"op": "in", "entity": uid_json(u)}),
        ScopeA::InList(us) => json!({"op": "in", "entities": us.iter().map(uid_json).collect::<Vec<_>>()}),
    };
    let mut m = Map::new();
    m.insert("effect".into(), json!(if p.effect == Effect::Permit { "permit" } else { "forbid" }));
    m.insert("principal".into(), est_scope_pr(&p.principal, "?principal"));
    m.insert("action".into(), action);
    m.insert("resource".into(), est_scope_pr(&p.resource, "?resource"));
    m.insert(
        "conditions".into(),
        J::Array(
            p.conds
                .iter()
                .map(|(w, c)| json!({"kind": if *w { "when" } else { "unless" }, "body": est_expr(c)}))
                .collect(),
        ),
    );
    if !p.annotations.is_empty() {
        let a: Map<String, J> = p.annotations.iter().map(|(k, v)| (k.clone(), json!(v))).collect();
        m.insert("annotations".into(), J::Object(a));
    }
    J::Object(m)
}

/// JSON cannot carry records with the reserved keys `__entity`, `__extn`, `__expr`
pub fn value_json_representable(v: &GValue) -> bool {
    match v {
        GValue::Set(xs) => xs.iter().all(value_json_representable),
        GValue::Rec(m) => m.iter().all(|(k, v)| !matches!(k.as_str(), "__entity" | "__extn" | "__expr") && value_json_representable(v)),
        _ => true,
    }
}

pub fn world_json_representable(w: &GWorld) -> bool {
    let rec_ok = |m: &std::collections::BTreeMap<String, GValue>| value_json_representable(&GValue::Rec(m.clone()));
    rec_ok(&w.context) && w.entities.values().all(|e| rec_ok(&e.attrs) && rec_ok(&e.tags))
}
