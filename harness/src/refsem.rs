//! Reference semantics: a from-scratch interpreter over GExpr/GWorld and the
//! authorizer model.  Written from the language documentation (DESIGN.md,
//! Appendix A); shares no code with the library under test.

use crate::ext;
use crate::model::*;
use std::collections::BTreeMap;

pub const TYPE: u8 = 1;
pub const MISSING_ENTITY: u8 = 2;
pub const MISSING_ATTR: u8 = 4;
pub const OVERFLOW: u8 = 8;
pub const EXTENSION: u8 = 16;
pub const ARITY: u8 = 32;
pub const SLOT: u8 = 64;
pub const OTHER: u8 = 128;

/// A set of acceptable error classes
#[derive(Clone, Copy, Debug, PartialEq, Eq, PartialOrd, Ord, Hash)]
pub struct ErrSet(pub u8);

impl ErrSet {
    pub fn contains(self, class: u8) -> bool {
        self.0 & class != 0
    }
    pub fn union(self, o: ErrSet) -> ErrSet {
        ErrSet(self.0 | o.0)
    }
    pub fn names(self) -> String {
        let mut v = vec![];
        for (b, n) in [
            (TYPE, "type"),
            (MISSING_ENTITY, "missing-entity"),
            (MISSING_ATTR, "missing-attr"),
            (OVERFLOW, "overflow"),
            (EXTENSION, "extension"),
            (ARITY, "arity"),
            (SLOT, "unlinked-slot"),
            (OTHER, "other"),
        ] {
            if self.0 & b != 0 {
                v.push(n);
            }
        }
        v.join("|")
    }
}

pub fn class_name(c: u8) -> &'static str {
    match c {
        TYPE => "type",
        MISSING_ENTITY => "missing-entity",
        MISSING_ATTR => "missing-attr",
        OVERFLOW => "overflow",
        EXTENSION => "extension",
        ARITY => "arity",
        SLOT => "unlinked-slot",
        _ => "other",
    }
}

pub type R = Result<GValue, ErrSet>;

#[derive(Clone, Debug, Default)]
pub struct Slots {
    pub principal: Option<Uid>,
    pub resource: Option<Uid>,
}

pub struct Interp<'a> {
    pub w: &'a GWorld,
    pub slots: Slots,
}

fn type_err() -> ErrSet {
    ErrSet(TYPE)
}

/// `*` matches any sequence of scalar values; every other element matches itself.
pub fn wildcard_match(text: &[char], pat: &[PatElem]) -> bool {
    // classic two-pointer with backtracking to the last star
    let (mut t, mut p) = (0usize, 0usize);
    let (mut star_p, mut star_t): (Option<usize>, usize) = (None, 0);
    while t < text.len() {
        if p < pat.len() {
            match &pat[p] {
                PatElem::Wild => {
                    star_p = Some(p);
                    star_t = t;
                    p += 1;
                    continue;
                }
                PatElem::Char(c) if *c == text[t] => {
                    t += 1;
                    p += 1;
                    continue;
                }
                _ => {}
            }
        }
        match star_p {
            Some(sp) => {
                star_t += 1;
                t = star_t;
                p = sp + 1;
            }
            None => return false,
        }
    }
    while p < pat.len() && pat[p] == PatElem::Wild {
        p += 1;
    }
    p == pat.len()
}

impl<'a> Interp<'a> {
    pub fn new(w: &'a GWorld) -> Self {
        Interp { w, slots: Slots::default() }
    }
    pub fn with_slots(w: &'a GWorld, slots: Slots) -> Self {
        Interp { w, slots }
    }

    fn bool_of(&self, e: &GExpr) -> Result<bool, ErrSet> {
        match self.eval(e)? {
            GValue::Bool(b) => Ok(b),
            _ => Err(type_err()),
        }
    }

    fn get_attr(&self, v: &GValue, a: &str) -> R {
        match v {
            GValue::Rec(m) => m.get(a).cloned().ok_or(ErrSet(MISSING_ATTR)),
            GValue::Ent(u) => match self.w.entities.get(u) {
                None => Err(ErrSet(MISSING_ENTITY)),
                Some(e) => e.attrs.get(a).cloned().ok_or(ErrSet(MISSING_ATTR)),
            },
            _ => Err(type_err()),
        }
    }

    fn has_attr(&self, v: &GValue, a: &str) -> Result<bool, ErrSet> {
        match v {
            GValue::Rec(m) => Ok(m.contains_key(a)),
            GValue::Ent(u) => Ok(self.w.entities.get(u).map(|e| e.attrs.contains_key(a)).unwrap_or(false)),
            _ => Err(type_err()),
        }
    }

    pub fn eval(&self, e: &GExpr) -> R {
        match e {
            GExpr::Bool(b) => Ok(GValue::Bool(*b)),
            GExpr::Long(n) => Ok(GValue::Long(*n)),
            GExpr::Str(s) => Ok(GValue::Str(s.clone())),
            GExpr::Ent(u) => Ok(GValue::Ent(u.clone())),
            GExpr::Var(v) => Ok(match v {
                Var::Principal => GValue::Ent(self.w.principal.clone()),
                Var::Action => GValue::Ent(self.w.action.clone()),
                Var::Resource => GValue::Ent(self.w.resource.clone()),
                Var::Context => GValue::Rec(self.w.context.clone()),
            }),
            GExpr::Slot(s) => {
                let u = match s {
                    Slot::Principal => &self.slots.principal,
                    Slot::Resource => &self.slots.resource,
                };
                u.clone().map(GValue::Ent).ok_or(ErrSet(SLOT))
            }
            GExpr::Not(a) => Ok(GValue::Bool(!self.bool_of(a)?)),
            GExpr::Neg(a) => match self.eval(a)? {
                GValue::Long(n) => n.checked_neg().map(GValue::Long).ok_or(ErrSet(OVERFLOW)),
                _ => Err(type_err()),
            },
            GExpr::Bin(BinOp::And, a, b) => {
                if !self.bool_of(a)? {
                    return Ok(GValue::Bool(false));
                }
                Ok(GValue::Bool(self.bool_of(b)?))
            }
            GExpr::Bin(BinOp::Or, a, b) => {
                if self.bool_of(a)? {
                    return Ok(GValue::Bool(true));
                }
                Ok(GValue::Bool(self.bool_of(b)?))
            }
            GExpr::If(c, t, f) => {
                if self.bool_of(c)? {
                    self.eval(t)
                } else {
                    self.eval(f)
                }
            }
            GExpr::Bin(op, a, b) => {
                let x = self.eval(a)?;
                let y = self.eval(b)?;
                self.binop(*op, x, y)
            }
            GExpr::IsEmpty(a) => match self.eval(a)? {
                GValue::Set(xs) => Ok(GValue::Bool(xs.is_empty())),
                _ => Err(type_err()),
            },
            GExpr::Has(a, path) => {
                // e has a.b.c  ==  e has a && e.a has b && e.a.b has c
                let mut cur = self.eval(a)?;
                for (i, k) in path.iter().enumerate() {
                    if !self.has_attr(&cur, k)? {
                        return Ok(GValue::Bool(false));
                    }
                    if i + 1 < path.len() {
                        cur = self.get_attr(&cur, k)?;
                    }
                }
                Ok(GValue::Bool(true))
            }
            GExpr::Attr(a, k) => {
                let v = self.eval(a)?;
                self.get_attr(&v, k)
            }
            GExpr::Like(a, pat) => match self.eval(a)? {
                GValue::Str(s) => {
                    let cs: Vec<char> = s.chars().collect();
                    Ok(GValue::Bool(wildcard_match(&cs, pat)))
                }
                _ => Err(type_err()),
            },
            GExpr::Is(a, ty, inn) => {
                let v = self.eval(a)?;
                let u = match &v {
                    GValue::Ent(u) => u,
                    _ => return Err(type_err()),
                };
                if &u.ty != ty {
                    return Ok(GValue::Bool(false));
                }
                match inn {
                    None => Ok(GValue::Bool(true)),
                    Some(x) => {
                        let y = self.eval(x)?;
                        self.binop(BinOp::In, v.clone(), y)
                    }
                }
            }
            GExpr::Set(xs) => {
                let mut out = Vec::with_capacity(xs.len());
                for x in xs {
                    out.push(self.eval(x)?);
                }
                Ok(GValue::set(out))
            }
            GExpr::Rec(fs) => {
                // field evaluation order is not fixed by the language: if several
                // fields error, any of their classes is acceptable
                let mut m = BTreeMap::new();
                let mut err: Option<ErrSet> = None;
                for (k, x) in fs {
                    match self.eval(x) {
                        Ok(v) => {
                            m.insert(k.clone(), v);
                        }
                        Err(e) => err = Some(err.map(|p| p.union(e)).unwrap_or(e)),
                    }
                }
                match err {
                    Some(e) => Err(e),
                    None => Ok(GValue::Rec(m)),
                }
            }
            GExpr::Call(f, args) => {
                let mut vs = Vec::with_capacity(args.len());
                for a in args {
                    vs.push(self.eval(a)?);
                }
                match ext::arity(f) {
                    Some(n) if n == vs.len() => ext::call(f, &vs),
                    Some(_) => Err(ErrSet(ARITY | TYPE)),
                    None => Err(ErrSet(EXTENSION | TYPE | OTHER)),
                }
            }
        }
    }

    pub fn binop(&self, op: BinOp, x: GValue, y: GValue) -> R {
        match op {
            BinOp::And | BinOp::Or => unreachable!(),
            BinOp::Eq => Ok(GValue::Bool(x == y)),
            BinOp::Neq => Ok(GValue::Bool(x != y)),
            BinOp::Lt | BinOp::Le | BinOp::Gt | BinOp::Ge => {
                let ord = match (&x, &y) {
                    (GValue::Long(a), GValue::Long(b)) => a.cmp(b),
                    (GValue::Ext(ExtVal::Datetime(a)), GValue::Ext(ExtVal::Datetime(b))) => a.cmp(b),
                    (GValue::Ext(ExtVal::Duration(a)), GValue::Ext(ExtVal::Duration(b))) => a.cmp(b),
                    _ => return Err(type_err()),
                };
                use std::cmp::Ordering::*;
                Ok(GValue::Bool(match op {
                    BinOp::Lt => ord == Less,
                    BinOp::Le => ord != Greater,
                    BinOp::Gt => ord == Greater,
                    _ => ord != Less,
                }))
            }
            BinOp::Add | BinOp::Sub | BinOp::Mul => match (x, y) {
                (GValue::Long(a), GValue::Long(b)) => match op {
                    BinOp::Add => a.checked_add(b),
                    BinOp::Sub => a.checked_sub(b),
                    _ => a.checked_mul(b),
                }
                .map(GValue::Long)
                .ok_or(ErrSet(OVERFLOW)),
                _ => Err(type_err()),
            },
            BinOp::In => {
                let a = match &x {
                    GValue::Ent(u) => u,
                    _ => return Err(type_err()),
                };
                match &y {
                    GValue::Ent(b) => Ok(GValue::Bool(self.w.reaches(a, b))),
                    GValue::Set(ys) => {
                        let mut us = vec![];
                        for v in ys {
                            match v {
                                GValue::Ent(b) => us.push(b),
                                _ => return Err(type_err()),
                            }
                        }
                        Ok(GValue::Bool(us.iter().any(|b| self.w.reaches(a, b))))
                    }
                    _ => Err(type_err()),
                }
            }
            BinOp::Contains => match x {
                GValue::Set(xs) => Ok(GValue::Bool(xs.contains(&y))),
                _ => Err(type_err()),
            },
            BinOp::ContainsAll | BinOp::ContainsAny => match (x, y) {
                (GValue::Set(xs), GValue::Set(ys)) => Ok(GValue::Bool(if op == BinOp::ContainsAll {
                    ys.iter().all(|v| xs.contains(v))
                } else {
                    ys.iter().any(|v| xs.contains(v))
                })),
                _ => Err(type_err()),
            },
            BinOp::HasTag | BinOp::GetTag => {
                let u = match &x {
                    GValue::Ent(u) => u,
                    _ => return Err(type_err()),
                };
                let k = match &y {
                    GValue::Str(k) => k,
                    _ => return Err(type_err()),
                };
                let ent = self.w.entities.get(u);
                if op == BinOp::HasTag {
                    Ok(GValue::Bool(ent.map(|e| e.tags.contains_key(k)).unwrap_or(false)))
                } else {
                    match ent {
                        None => Err(ErrSet(MISSING_ENTITY)),
                        Some(e) => e.tags.get(k).cloned().ok_or(ErrSet(MISSING_ATTR)),
                    }
                }
            }
        }
    }
}

// ---------------------------------------------------------------- policies and the authorizer model

#[derive(Clone, Copy, Debug, PartialEq, Eq, PartialOrd, Ord, Hash)]
pub enum Outcome {
    Satisfied,
    NotSatisfied,
    Error(ErrSet),
}

impl Outcome {
    pub fn short(&self) -> &'static str {
        match self {
            Outcome::Satisfied => "sat",
            Outcome::NotSatisfied => "unsat",
            Outcome::Error(_) => "err",
        }
    }
}

/// policy = scope && when1 && !unless1 && ...; Ok(non-bool) is a type error
pub fn policy_outcome(p: &GPolicy, w: &GWorld, slots: &Slots) -> Outcome {
    let it = Interp::with_slots(w, slots.clone());
    match it.eval(&p.condition()) {
        Ok(GValue::Bool(true)) => Outcome::Satisfied,
        Ok(GValue::Bool(false)) => Outcome::NotSatisfied,
        Ok(_) => Outcome::Error(ErrSet(TYPE)),
        Err(e) => Outcome::Error(e),
    }
}

#[derive(Clone, Debug, PartialEq, Eq)]
pub struct ModelResponse {
    pub allow: bool,
    pub reasons: Vec<String>,
    pub errors: Vec<String>,
}

/// decision / reasons / errors from per-policy (id, effect, outcome)
pub fn authorize_model(pols: &[(String, Effect, Outcome)]) -> ModelResponse {
    let mut sat_permit = vec![];
    let mut sat_forbid = vec![];
    let mut errors = vec![];
    for (id, eff, out) in pols {
        match (eff, out) {
            (Effect::Permit, Outcome::Satisfied) => sat_permit.push(id.clone()),
            (Effect::Forbid, Outcome::Satisfied) => sat_forbid.push(id.clone()),
            (_, Outcome::Error(_)) => errors.push(id.clone()),
            _ => {}
        }
    }
    let allow = !sat_permit.is_empty() && sat_forbid.is_empty();
    let mut reasons = if !sat_forbid.is_empty() { sat_forbid } else { sat_permit };
    reasons.sort();
    errors.sort();
    ModelResponse { allow, reasons, errors }
}
